/-
  Props/C17_Src2.lean — tie between C17's hand-written ALG transcriptions of `Bits.tofile` (`tofile chunk s`, the chunk
  loop `tofileLoop`) and of `Array.fromfile` (`arrayFromfile`) and the CURRENT source text.

  `Gen/Src.lean` is regenerated on every run by harness/translate.py from /repo's working tree.
  * `tofile_loop self_len chunk_size` is the `for start in range(0, len(self), chunk_size)` loop of `Bits.tofile`; every
    iteration records one effect `f.write(self._absolute_slice(_, _).tobytes())` with the values `(start, min(start +
    chunk_size, len(self)))`; `range` with a zero step raises ValueError.
  * `array_fromfile n itemsize len_new_data` is `Array.fromfile` from the line after `new_data = Bits(f)`:
    `max_items = len(new_data) // bitlength` (ZeroDivisionError for a zero divisor), `items_to_append`, the recorded
    effect `self.data += L1[_:_]` (`L1` = `new_data`), and EOFError raised AFTER the append; an error carries the
    effects recorded before it (`Err × List Py.Act`).
  Below, the meanings give each recorded effect the meaning the C17 model gives to the primitives it names
  (`absoluteSlice`, `Store.tobytes`, `Store.getslice`), and the theorems state that the translated function under that
  meaning IS the ALG function, for every input.  A change of the source changes `Gen/Src.lean`; the theorem then no
  longer checks.
-/
import BitstringModel.Model.C17
import BitstringModel.Variants.SrcA3
import Mathlib.Tactic.SplitIfs
-- the proofs carry fallbacks (`first | … | grind`, extra simp lemmas) that only fire for other spellings of the source
set_option linter.unusedTactic false
set_option linter.unusedSimpArgs false
namespace BM.C17.SrcA32
open BM BM.C17

/-! ### `Bits.tofile` -/

/-- Meaning of one recorded write: the bytes handed to `f.write`, `self._absolute_slice(a, b).tobytes()` =
    `(absoluteSlice s a b).tobytes` — the expression `tofileLoop` uses.  The model's `absoluteSlice` takes positions as
    naturals; the recorded values are Python ints, which the loop only produces non-negative (`start` ranges over
    `range(0, len, chunk)`), so `Int.toNat` loses nothing. -/
def writeOf (s : Store) : Py.Act → Option Bytes
  | ⟨"f.write(self._absolute_slice(_, _).tobytes())", [some a, some b]⟩ => some (absoluteSlice s a.toNat b.toNat).tobytes
  | _ => none

/-- What the file receives: the recorded writes, in order, concatenated (`none` if any effect is not a known write). -/
def writesMeaning (s : Store) : List Py.Act → Option Bytes
  | [] => some []
  | a :: tr => (writeOf s a).bind fun x => (writesMeaning s tr).map fun w => x ++ w

theorem writesMeaning_nil (s : Store) : writesMeaning s [] = some [] := rfl

theorem writesMeaning_snoc (s : Store) (tr : List Py.Act) (a : Py.Act) :
    writesMeaning s (tr ++ [a]) = (writesMeaning s tr).bind fun w => (writeOf s a).map fun x => w ++ x := by
  induction tr with
  | nil => cases h : writeOf s a <;> simp [writesMeaning, h]
  | cons b tr ih =>
    simp only [List.cons_append, writesMeaning, ih]
    cases writeOf s b <;> cases writesMeaning s tr <;> cases writeOf s a <;> simp [List.append_assoc]

/-- `len(range(a, b, t))` and `range(a, b, t)` for a positive step, one element at a time. -/
theorem rangeLen_zero (A B T : Int) (hT : 0 < T) (h : ¬ A < B) : Py.rangeLen A B T = 0 := by
  unfold Py.rangeLen; simp [hT, h]

theorem rangeLen_step (A B T : Int) (hT : 0 < T) (h : A < B) :
    Py.rangeLen A B T = Py.rangeLen (A + T) B T + 1 := by
  unfold Py.rangeLen
  simp only [gt_iff_lt, hT, if_true, h]
  by_cases h2 : A + T < B
  · simp only [h2, if_true]
    have e : B - A - 1 = (B - (A + T) - 1) + 1 * T := by omega
    rw [e, Int.add_mul_ediv_right _ _ (by omega : T ≠ 0)]
    have : 0 ≤ (B - (A + T) - 1) / T := Int.ediv_nonneg (by omega) (by omega)
    omega
  · simp only [h2, if_false]
    have : (B - A - 1) / T = 0 := Int.ediv_eq_zero_of_lt (by omega) (by omega)
    rw [this]; rfl

theorem rangeList_nil (A B T : Int) (hT : 0 < T) (h : ¬ A < B) : Py.rangeList A B T = [] := by
  unfold Py.rangeList; rw [rangeLen_zero A B T hT h]; rfl

theorem rangeList_cons (A B T : Int) (hT : 0 < T) (h : A < B) :
    Py.rangeList A B T = A :: Py.rangeList (A + T) B T := by
  unfold Py.rangeList
  rw [rangeLen_step A B T hT h, List.range_succ_eq_map]
  simp only [List.map_cons, List.map_map]
  congr 1
  · simp
  · apply List.map_congr_left
    intro k _
    simp only [Function.comp, Nat.succ_eq_add_one, Int.natCast_add, Int.add_mul]
    omega

/-- The bytes one iteration writes, as a function of the loop variable. -/
def chunkBytes (s : Store) (c : Int) (x : Int) : Bytes :=
  (absoluteSlice s x.toNat (min (x + c) (s.len : Int)).toNat).tobytes

/-- The translated loop body, run over any list of start positions from any trace: the meaning of the final trace is
    the meaning of the initial one followed by one chunk per position. -/
theorem loop1_meaning (s : Store) (c : Int) (xs : List Int) :
    ∀ tr : List Py.Act, (Gen.SrcA3.tofile_loop.loop1 (s.len : Int) c xs tr).map (writesMeaning s)
      = .ok ((writesMeaning s tr).bind fun w => some (w ++ xs.flatMap (chunkBytes s c))) := by
  induction xs with
  | nil =>
    intro tr
    cases h : writesMeaning s tr <;> simp [Gen.SrcA3.tofile_loop.loop1, Except.map, h]
  | cons x rest ih =>
    intro tr
    have hstep : ∀ a : Py.Act, writeOf s a = some (chunkBytes s c x) →
        (writesMeaning s (tr ++ [a])).bind (fun w => some (w ++ rest.flatMap (chunkBytes s c)))
          = (writesMeaning s tr).bind fun w => some (w ++ (x :: rest).flatMap (chunkBytes s c)) := by
      intro a ha
      rw [writesMeaning_snoc, ha]
      cases writesMeaning s tr <;> simp [List.append_assoc]
    simp only [Gen.SrcA3.tofile_loop.loop1]
    rw [ih]
    congr 1
    apply hstep
    simp [writeOf, chunkBytes] <;> first
      | done
      | omega
      | (congr 2; omega)
      | grind

/-- The model's fuelled loop visits exactly `range(start, len, chunk)` when the fuel covers the distance to the end
    (it does: the fuel is `len`). -/
theorem tofileLoop_range (s : Store) (chunk : Nat) (hc : 0 < chunk) (fuel : Nat) :
    ∀ start : Nat, s.len ≤ start + fuel →
      tofileLoop s chunk fuel start
        = (Py.rangeList (start : Int) (s.len : Int) (chunk : Int)).flatMap (chunkBytes s (chunk : Int)) := by
  induction fuel with
  | zero =>
    intro start h
    rw [rangeList_nil _ _ _ (by omega) (by omega)]
    rfl
  | succ fuel ih =>
    intro start h
    unfold tofileLoop
    by_cases hlt : start < s.len
    · rw [rangeList_cons _ _ _ (by omega) (by omega)]
      have e : ((start : Int) + (chunk : Int)) = ((start + chunk : Nat) : Int) := by omega
      have e2 : (min ((start : Int) + (chunk : Int)) (s.len : Int)).toNat = min (start + chunk) s.len := by omega
      simp only [hlt, if_true, List.flatMap_cons, chunkBytes, Int.toNat_natCast, e2]
      rw [e, ← ih (start + chunk) (by omega)]
    · rw [rangeList_nil _ _ _ (by omega) (by omega)]
      simp [hlt]

/-- `Bits.tofile`'s loop as the source has it now = `C17.tofile chunk s`: the concatenation of the recorded writes
    (each one `toBytes`-style `tobytes()` of the absolute slice, as the model has it) is the model's chunked output —
    for EVERY store and EVERY chunk size the model can express (`chunk : Nat`), zero included (both sides: the
    ValueError of `range()` with a zero step, nothing written).  No divisibility hypothesis is needed: at this level
    the claim is "the same sequence of writes"; that the writes add up to `tobytes()` when `8 ∣ chunk` is the model's
    theorem `tofile_eq_toBytes`.  (A negative `chunk_size` — an empty `range`, nothing written — cannot be expressed
    with the model's `chunk : Nat`; the chunk constant in the source is a positive literal, checked by
    `tofile_chunk_whole_bytes`.) -/
theorem tofile_loop_eq (chunk : Nat) (s : Store) :
    (Gen.SrcA3.tofile_loop (s.len : Int) (chunk : Int)).map (writesMeaning s) = (tofile chunk s).map some := by
  unfold Gen.SrcA3.tofile_loop tofile Py.rangeE
  by_cases hc : chunk = 0
  · subst hc
    simp [Except.map, Except.bind, bind]
  · have hc' : ¬ ((chunk : Int) = 0) := by omega
    have h := loop1_meaning s (chunk : Int) (Py.rangeList 0 (s.len : Int) (chunk : Int)) []
    rw [writesMeaning_nil] at h
    simp only [Option.bind_some, List.nil_append] at h
    have h2 := tofileLoop_range s chunk (by omega) s.len 0 (by omega)
    simp only [Int.natCast_zero] at h2
    simp only [hc, hc', if_false, Except.bind, bind, Except.map] at h ⊢
    rw [h2]
    generalize Gen.SrcA3.tofile_loop.loop1 (s.len : Int) (chunk : Int) (Py.rangeList 0 (s.len : Int) (chunk : Int)) [] = r at h ⊢
    cases r <;> simp_all

/-! ### `Array.fromfile` -/

/-- Meaning of the effect `self.data += L1[_:_]` (`L1` is the local `new_data`): the Array's data afterwards,
    `data ++ (newData.getslice (some a) (some b)).buf` — `new_data[a:b]` is the slice the model calls `piece`
    (`Bits.__getitem__` → `getslice`). -/
def fromfileMeaning (data : Bits) (newData : Store) : List Py.Act → Option Bits
  | [⟨"self.data += L1[_:_]", [some a, some b]⟩] => some (data ++ (newData.getslice (some a) (some b)).buf)
  | _ => none

/-- The model's result type for `Array.fromfile`: `.ok (eof, data after the call)` or an error raised before anything
    changed.  A translated run that ends normally gives `eof = false`; one that ends in EOFError gives `eof = true`,
    with the data as the effects recorded BEFORE the error left them; any other error is that error. -/
def outcome (m : List Py.Act → Option Bits) :
    Except (Err × List Py.Act) (List Py.Act) → Option (Except Err (Bool × Bits))
  | .ok tr => (m tr).map fun d => .ok (false, d)
  | .error (.internal "EOFError", tr) => (m tr).map fun d => .ok (true, d)
  | .error (e, _) => some (.error e)

/-- Closes the leaves left after ALL guards of both sides have been split with `split_ifs`: contradictory guards
    (`omega`, or a literal `False`), syntactically identical results, or results that agree after unfolding the meaning
    up to the way the arithmetic is written (`omega` / congruence + linear arithmetic by `grind`). -/
local macro "leaf" : tactic =>
  `(tactic| first
    | omega
    | (exfalso; assumption)
    | with_reducible rfl
    | (simp [outcome, fromfileMeaning, itemsToAppend]; first | done | omega | grind)
    | grind)

/-- Python `//` of two non-negative ints (`Int.fdiv`) is the model's natural-number division. -/
theorem fdiv_nat (a b : Nat) : Int.fdiv (a : Int) (b : Int) = ((a / b : Nat) : Int) := by
  rw [Int.fdiv_eq_ediv_of_nonneg _ (by omega)]; omega

/-- `Array.fromfile` from `max_items = …` on, as the source has it now = `C17.arrayFromfile`, for every initial data,
    every item width `w` (zero included: both sides ZeroDivisionError), every file content and kind, every Optional `n`
    (negative included): the same final data and the same ok / eof / error outcome.
    The two hypotheses are the two steps of `Array.fromfile` that precede the translated part and are transcribed in
    `arrayFromfile` itself: the trailing-bits check passed (`hd`; otherwise ValueError before anything is read) and
    `new_data = Bits(f)` succeeded with store `newData` (`hsrc`); `len_new_data = len(new_data) = newData.len`. -/
theorem array_fromfile_eq (data : Bits) (w : Nat) (file : Bytes) (fk : FKind) (n : Option Int) (newData : Store)
    (hd : data.length % w = 0) (hsrc : fromfileSource file fk = .ok newData) :
    outcome (fromfileMeaning data newData) (Gen.SrcA3.array_fromfile n (w : Int) (newData.len : Int))
      = some (arrayFromfile data w file fk n) := by
  unfold Gen.SrcA3.array_fromfile arrayFromfile Py.fdivE
  by_cases hw : w = 0
  · subst hw
    simp [outcome]
  · have hw' : ¬ ((w : Int) = 0) := by omega
    rcases n with _ | v <;>
      simp [hw, hw', hd, hsrc, fdiv_nat, bind, Except.bind, outcome, fromfileMeaning, itemsToAppend]
    all_goals (first | (split_ifs <;> leaf) | leaf)

/-- Non-vacuity: 20 bits written in 8-bit chunks — three recorded writes `ff 00 80`. -/
example : (Gen.SrcA3.tofile_loop 20 8).map
    (writesMeaning (Store.mem (List.replicate 8 true ++ List.replicate 8 false ++ [true, false, false, false])))
    = .ok (some [255, 0, 128]) := by
  rfl

/-- Non-vacuity: an 8-bit-item Array reading 3 items from a 2-byte file: both items appended, then EOFError. -/
example : outcome (fromfileMeaning [true] (Store.frombytes [0xa5, 0x0f])) (Gen.SrcA3.array_fromfile (some 3) 8 16)
    = some (.ok (true, [true] ++ [true, false, true, false, false, true, false, true,
                                    false, false, false, false, true, true, true, true])) := by
  rfl

example : outcome (fromfileMeaning [] (Store.frombytes [0xa5, 0x0f])) (Gen.SrcA3.array_fromfile (some 1) 8 16)
    = some (.ok (false, [true, false, true, false, false, true, false, true])) := by
  rfl

end BM.C17.SrcA32
