/-
  Props/C01_Src2.lean — tie between C01's hand-written ALG transcription of `s + t` and the CURRENT source text
  (second batch; the first is Props/C01_Src.lean).

  `Gen.SrcA6.add self_len len_bs` is regenerated on every run by harness/translate.py from `Bits.__add__`
  (bitstring/bits.py): the comparison `len(bs) <= len(self)` is translated, the effects of the two branches are
  recorded.  `addMeaning` runs a recorded trace effect by effect on the state (`bs`, `L1`) of C01 objects (class + bits),
  and `add_eq` states that, for EVERY pair of objects, the translated method under that meaning IS `C01.add`.
  The branch only decides which operand is copied: in both, the result has the class of the left operand and the bits
  `left ++ right` — the meaning below produces that by actually running `_addright` / `_addleft`.
-/
import BitstringModel.Model.C01
import BitstringModel.Variants.SrcA6
namespace BM.C01.SrcA62
open BM BM.C01

/-- Meaning of a trace of `Bits.__add__` on `self = a`, effect by effect.  State: what the local `bs` denotes and what
    the new local object `L1` is (`none` = not created yet).
    * `bs = self.__class__._create_from_bitstype(bs)` = the model's `createFrom a.cls bs`;
    * `L1 = self._copy()` — same class, same bits as `self`;  `L1 = self.__class__()` — empty, class of `self`;
    * `L1._bitstore = bs._bitstore._copy()` — the bits of `L1` become those of `bs` (its class stays);
    * `L1._addright(bs)` — `L1.bits ++ bs.bits`;  `L1._addleft(self)` — `self.bits ++ L1.bits`;
    * `return L1` ends the method. -/
def addRun (a : Obj) : Obj → Option Obj → List Py.Act → Option Obj
  | _, some r, [⟨"return L1", []⟩] => some r
  | bs, r, ⟨"bs = self.__class__._create_from_bitstype(bs)", []⟩ :: rest => addRun a (createFrom a.cls bs) r rest
  | bs, _, ⟨"L1 = self._copy()", []⟩ :: rest => addRun a bs (some ⟨a.cls, a.bits⟩) rest
  | bs, _, ⟨"L1 = self.__class__()", []⟩ :: rest => addRun a bs (some ⟨a.cls, []⟩) rest
  | bs, some r, ⟨"L1._bitstore = bs._bitstore._copy()", []⟩ :: rest => addRun a bs (some ⟨r.cls, bs.bits⟩) rest
  | bs, some r, ⟨"L1._addright(bs)", []⟩ :: rest => addRun a bs (some ⟨r.cls, r.bits ++ bs.bits⟩) rest
  | bs, some r, ⟨"L1._addleft(self)", []⟩ :: rest => addRun a bs (some ⟨r.cls, a.bits ++ r.bits⟩) rest
  | _, _, _ => none

/-- `a + b`: the trace is run with `bs` = the right operand and no `L1` yet. -/
def addMeaning (a b : Obj) (tr : List Py.Act) : Option Obj := addRun a b none tr

/-! ### the meaning, one effect at a time -/

theorem addRun_return (a bs r : Obj) : addRun a bs (some r) [⟨"return L1", []⟩] = some r := by
  simp [addRun]

theorem addRun_create (a bs : Obj) (r : Option Obj) (rest : List Py.Act) :
    addRun a bs r (⟨"bs = self.__class__._create_from_bitstype(bs)", []⟩ :: rest)
      = addRun a (createFrom a.cls bs) r rest := by
  cases r <;> simp [addRun]

theorem addRun_copy (a bs : Obj) (r : Option Obj) (rest : List Py.Act) :
    addRun a bs r (⟨"L1 = self._copy()", []⟩ :: rest) = addRun a bs (some ⟨a.cls, a.bits⟩) rest := by
  cases r <;> simp [addRun]

theorem addRun_new (a bs : Obj) (r : Option Obj) (rest : List Py.Act) :
    addRun a bs r (⟨"L1 = self.__class__()", []⟩ :: rest) = addRun a bs (some ⟨a.cls, []⟩) rest := by
  cases r <;> simp [addRun]

theorem addRun_setstore (a bs r : Obj) (rest : List Py.Act) :
    addRun a bs (some r) (⟨"L1._bitstore = bs._bitstore._copy()", []⟩ :: rest)
      = addRun a bs (some ⟨r.cls, bs.bits⟩) rest := by
  simp [addRun]

theorem addRun_addright (a bs r : Obj) (rest : List Py.Act) :
    addRun a bs (some r) (⟨"L1._addright(bs)", []⟩ :: rest) = addRun a bs (some ⟨r.cls, r.bits ++ bs.bits⟩) rest := by
  simp [addRun]

theorem addRun_addleft (a bs r : Obj) (rest : List Py.Act) :
    addRun a bs (some r) (⟨"L1._addleft(self)", []⟩ :: rest) = addRun a bs (some ⟨r.cls, a.bits ++ r.bits⟩) rest := by
  simp [addRun]

/-- `_create_from_bitstype` never changes the bits (so `len(bs)` is the length of the right operand's bits). -/
theorem createFrom_bits (cls : Cls) (x : Obj) : (createFrom cls x).bits = x.bits := by
  unfold createFrom; split <;> rfl

/-! ### shape-agnostic proof vocabulary -/

/-- Decide every `if` whose condition (or its negation) follows from the context by linear arithmetic. -/
macro "eval_guards" : tactic => `(tactic| simp (disch := omega) only [if_pos, if_neg])

/-- Bool guards → propositions, decide them from the context, flatten the trace, run it. -/
macro "run_guards" : tactic => `(tactic| (
  try simp only [Bool.not_eq_true', Bool.not_eq_true, Bool.and_eq_true, Bool.or_eq_true, decide_eq_true_eq,
    decide_eq_false_iff_not, Bool.not_eq_false', Bool.not_eq_false, Bool.and_eq_false_iff, Bool.or_eq_false_iff,
    ne_eq, Bool.not_not, Except.bind]
  try eval_guards
  try simp only [Except.map, List.nil_append, List.cons_append, List.append_assoc, List.singleton_append,
    addMeaning, addRun_create, addRun_copy, addRun_new, addRun_setstore, addRun_addright, addRun_addleft,
    addRun_return]))

/-- `Bits.__add__` as the source has it now = `C01.add`, for every left operand `a` and every right operand `b`
    (any classes, any contents; `len(bs)` is taken after the conversion, which keeps the bits: `createFrom_bits`).
    The method never raises.  No hypothesis. -/
theorem add_eq (a b : Obj) :
    (Gen.SrcA6.add (a.bits.length : Int) (b.bits.length : Int)).map (addMeaning a b) = .ok (some (add a b)) := by
  unfold Gen.SrcA6.add add
  simp only [createFrom_bits]
  by_cases h : b.bits.length ≤ a.bits.length <;> run_guards <;> (try simp only [createFrom_bits])

/-! ### non-vacuity -/

/-- Shorter right operand: `self` is copied, `bs` added on the right; the result is a `BitStream`. -/
example : (Gen.SrcA6.add 2 1).map (addMeaning ⟨.bitStream, [true, false]⟩ ⟨.bits, [true]⟩)
    = .ok (some ⟨.bitStream, [true, false, true]⟩) := by
  rfl

/-- Longer right operand: its store is copied into a new object of the LEFT class, `self` added on the left. -/
example : (Gen.SrcA6.add 1 2).map (addMeaning ⟨.bits, [true]⟩ ⟨.bitArray, [false, false]⟩)
    = .ok (some ⟨.bits, [true, false, false]⟩) := by
  rfl

end BM.C01.SrcA62
