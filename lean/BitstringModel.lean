-- Root of the `BitstringModel` library: models (import-free), generated layer, proofs, properties.
import BitstringModel.Model.Basic
import BitstringModel.Model.C16
import BitstringModel.Props.C16
