-- Root of the `BitstringModel` library.  Checks build the modules they need by name
-- (`lake build BitstringModel.Props.Cxx`); `./check --setup` builds every Props/Model module.
import BitstringModel.Model.Basic
